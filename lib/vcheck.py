"""Shared machinery of /verif/check: build steps, correspondence run, verdict, evidence.

One check = (1) the Coq development builds and the property's theorems are closed
(Print Assumptions captured), (2) facts extracted from /repo satisfy their disciplines
(properties that use them), (3) the Go harness drives the real code from /repo's working
tree and the extracted Coq check function judges every observed case (specification on
the implementation's output, and model vs implementation on the property's projection),
(4) a sample is re-evaluated inside Coq by vm_compute to guard extraction and glue.
"""
import fcntl
import hashlib
import json
import os
import re
import shutil
import subprocess
import sys
import time

VERIF = os.path.dirname(os.path.dirname(os.path.abspath(__file__)))
COQ = os.path.join(VERIF, "coq")
BUILD = os.path.join(VERIF, ".build")
# the tree under verification; VERIF_REPO lets a scratch worktree be checked without touching /repo
REPO = os.path.abspath(os.environ.get("VERIF_REPO") or "/repo")

GOENV = dict(os.environ, GOFLAGS="-mod=mod", GOPROXY="off", GOSUMDB="off", GOTOOLCHAIN="local",
             CGO_ENABLED=os.environ.get("CGO_ENABLED", "1"))

FORBIDDEN = re.compile(r"\b(Admitted|admit|Axiom|Axioms|Parameter|Parameters|Conjecture|Admit Obligations|"
                       r"Unset Guard Checking|Unset Positivity Checking|Unset Universe Checking|bypass_check|"
                       r"type-in-type|impredicative-set)\b")


class Lock:
    def __init__(self, name):
        os.makedirs(BUILD, exist_ok=True)
        self.path = os.path.join(BUILD, name + ".lock")

    def __enter__(self):
        self.f = open(self.path, "w")
        fcntl.flock(self.f, fcntl.LOCK_EX)
        return self

    def __exit__(self, *a):
        fcntl.flock(self.f, fcntl.LOCK_UN)
        self.f.close()


def run(cmd, cwd=None, env=None, timeout=None, stdin=None):
    t0 = time.time()
    try:
        p = subprocess.run(cmd, cwd=cwd, env=env, timeout=timeout, input=stdin,
                           stdout=subprocess.PIPE, stderr=subprocess.STDOUT, text=True, errors="replace")
        return p.returncode, p.stdout, time.time() - t0
    except subprocess.TimeoutExpired as e:
        out = e.stdout if isinstance(e.stdout, str) else (e.stdout or b"").decode("utf8", "replace")
        return 124, out + "\n[timeout after %ss]" % timeout, time.time() - t0


# ----------------------------------------------------------------------------- Coq

def forbidden_scan():
    """grep the development for vernacular that would declare an axiom or switch off a check."""
    hits = []
    for root, _, files in os.walk(COQ):
        for fn in files:
            if not fn.endswith(".v"):
                continue
            p = os.path.join(root, fn)
            txt = open(p, errors="replace").read()
            # strip comments (non-nested is enough for our own sources)
            txt2 = re.sub(r"\(\*.*?\*\)", "", txt, flags=re.S)
            for m in FORBIDDEN.finditer(txt2):
                hits.append("%s: %s" % (os.path.relpath(p, VERIF), m.group(0)))
    return hits


def coq_files():
    out = []
    for line in open(os.path.join(COQ, "_CoqProject")):
        line = line.strip()
        if line.endswith(".v"):
            out.append(line)
    return out


def run_glbfacts(args):
    """Build and run the source facts extractor (gen/glbfacts) on the tree under verification.
    Returns (ok, stdout)."""
    gdir = os.path.join(VERIF, "gen", "glbfacts")
    exe = os.path.join(BUILD, "glbfacts")
    with Lock("go"):
        rc, out, _ = run(["go", "build", "-o", exe, "."], cwd=gdir, env=GOENV, timeout=300)
    if rc != 0:
        return False, "glbfacts build failed:\n" + out
    p = subprocess.run([exe, REPO] + list(args), stdout=subprocess.PIPE, stderr=subprocess.PIPE, text=True, timeout=120)
    if p.returncode != 0:
        return False, "glbfacts failed:\n" + p.stdout + p.stderr
    return True, p.stdout


def gen_coqproject():
    """_CoqProject = -Q . Glb + the union of coq/project.d/*.files (one fragment per vertical)."""
    d = os.path.join(COQ, "project.d")
    files = []
    for fn in sorted(os.listdir(d)):
        if fn.endswith(".files"):
            for line in open(os.path.join(d, fn)):
                line = line.strip()
                if line and not line.startswith("#") and line not in files and os.path.exists(os.path.join(COQ, line)):
                    files.append(line)
    if os.path.exists(os.path.join(COQ, "Generated", "Facts.v")) and "Generated/Facts.v" not in files:
        pass
    text = "-Q . Glb\n" + "\n".join(files) + "\n"
    p = os.path.join(COQ, "_CoqProject")
    if not os.path.exists(p) or open(p).read() != text:
        open(p, "w").write(text)
        run(["coq_makefile", "-f", "_CoqProject", "-o", "Makefile"], cwd=COQ)
    elif not os.path.exists(os.path.join(COQ, "Makefile")):
        run(["coq_makefile", "-f", "_CoqProject", "-o", "Makefile"], cwd=COQ)


def build_coq(targets=None, timeout=2400):
    """make the development, or only the given .vo targets and what they depend on
    (no-op when up to date). Returns (ok, log, failing_files)."""
    with Lock("coqproject"):
        gen_coqproject()
    with Lock("coq"):
        cmd = ["make", "-k", "-j16"] + list(targets or [])
        rc, out, dt = run(cmd, cwd=COQ, timeout=timeout)
        failing = re.findall(r'File "\./([^"]+)", line (\d+)', out) if rc != 0 else []
        return rc == 0, out, failing


def vo_ok(vfile):
    vo = os.path.join(COQ, vfile[:-2] + ".vo")
    v = os.path.join(COQ, vfile)
    return os.path.exists(vo) and os.path.getmtime(vo) >= os.path.getmtime(v)


def print_assumptions(propfile):
    """Recompile the property file alone and capture what Print Assumptions reports.
    Returns (ok, [(theorem, assumptions_text)], log)."""
    src = open(os.path.join(COQ, propfile)).read()
    src_nc = re.sub(r"\(\*.*?\*\)", "", src, flags=re.S)
    names = re.findall(r"^\s*(?:Theorem|Corollary)\s+([A-Za-z0-9_']+)", src_nc, flags=re.M)
    printed = re.findall(r"^\s*Print Assumptions\s+([A-Za-z0-9_']+)\s*\.", src_nc, flags=re.M)
    with Lock("coq"):
        rc, out, dt = run(["coqc", "-Q", ".", "Glb", propfile], cwd=COQ, timeout=600)
    if rc != 0:
        return False, [(n, "NOT CHECKED") for n in names], out
    # coqc prints one block per Print Assumptions, in order
    blocks = re.split(r"(?=^Closed under the global context|^Axioms:)", out, flags=re.M)
    blocks = [b.strip() for b in blocks if b.strip().startswith(("Closed under", "Axioms:"))]
    res = []
    for i, n in enumerate(printed):
        res.append((n, blocks[i] if i < len(blocks) else "NOT PRINTED"))
    for n in names:
        if n not in printed:
            res.append((n, "no Print Assumptions in file"))
    return True, res, out


# ----------------------------------------------------------------------------- OCaml / Go

def build_ocaml(oid, vo_targets=None):
    """(Re)extract and compile ocaml/<oid>/drv when older than the Coq objects it is extracted from
    (the property's own .vo targets: make rebuilds those whenever anything in their closure changes)."""
    d = os.path.join(VERIF, "ocaml", oid)
    drv = os.path.join(d, "drv")
    with Lock("ocaml-" + oid):
        newest = 0
        vos = [os.path.join(COQ, t) for t in (vo_targets or [])]
        if not vos:
            for root, _, files in os.walk(COQ):
                vos += [os.path.join(root, fn) for fn in files if fn.endswith(".vo")]
        for f in vos:
            if os.path.exists(f):
                newest = max(newest, os.path.getmtime(f))
        for fn in ("driver.ml", "extract.v"):
            newest = max(newest, os.path.getmtime(os.path.join(d, fn)))
        for fn in os.listdir(os.path.join(VERIF, "ocaml", "common")):
            newest = max(newest, os.path.getmtime(os.path.join(VERIF, "ocaml", "common", fn)))
        if os.path.exists(drv) and os.path.getmtime(drv) >= newest:
            return True, "up to date"
        rc, out, dt = run([os.path.join(VERIF, "ocaml", "build.sh"), oid], timeout=900)
        return rc == 0 and os.path.exists(drv), out


def build_harness(pid, race=False):
    """go build the property's harness command against the current working tree of the repository
    under verification (hooks on: -tags verif)."""
    tag = "" if REPO == "/repo" else "_" + hashlib.sha1(REPO.encode()).hexdigest()[:8]
    name = "h_" + pid.lower() + ("_race" if race else "") + tag
    exe = os.path.join(BUILD, name)
    hdir = os.path.join(VERIF, "harness")
    with Lock("go" + tag):
        modfile = os.path.join(hdir, "go.mod")
        if tag:
            md = os.path.join(BUILD, "gomod" + tag)
            os.makedirs(md, exist_ok=True)
            modfile = os.path.join(md, "go.mod")
            open(modfile, "w").write(open(os.path.join(hdir, "go.mod")).read().replace("=> /repo", "=> " + REPO))
        gosum = modfile[:-4] + ".sum"
        try:
            shutil.copyfile(os.path.join(REPO, "go.sum"), gosum)
        except OSError:
            pass
        cmd = ["go", "build", "-modfile=" + modfile, "-tags", "verif"] + (["-race"] if race else []) + ["-o", exe, "./cmd/" + pid.lower()]
        rc, out, dt = run(cmd, cwd=hdir, env=GOENV, timeout=900)
    return rc == 0, out, exe


# ----------------------------------------------------------------------------- findings

def load_known():
    known, fixed = [], []
    p = os.path.join(VERIF, "KNOWN_FINDINGS.txt")
    if os.path.exists(p):
        for line in open(p):
            line = line.strip()
            if line.startswith("known:"):
                m = re.match(r"known:\s+property=(\S+)\s+sig=(\S+)\s+(.*)", line)
                if m:
                    known.append({"property": m.group(1), "sig": m.group(2), "what": m.group(3)})
            elif line.startswith("fixed:"):
                fixed.append(line)
    return known, fixed


def write_replay(pid, payload):
    d = os.path.join(VERIF, "replay") if REPO == "/repo" else os.path.join(BUILD, "alt-replay")
    os.makedirs(d, exist_ok=True)
    blob = json.dumps(payload, sort_keys=True, indent=1)
    h = hashlib.sha1(blob.encode()).hexdigest()[:10]
    p = os.path.join(d, "%s-%s.json" % (pid, h))
    open(p, "w").write(blob)
    return p


def write_evidence(pid, ev):
    # runs against a scratch tree (VERIF_REPO) never touch the committed evidence
    d = os.path.join(VERIF, "evidence") if REPO == "/repo" else os.path.join(BUILD, "alt-evidence")
    os.makedirs(d, exist_ok=True)
    p = os.path.join(d, pid + ".json")
    tmp = p + ".tmp%d" % os.getpid()
    open(tmp, "w").write(json.dumps(ev, indent=1, sort_keys=True, default=str))
    os.replace(tmp, p)


def coq_eval(name, text, timeout=900):
    """Evaluate a generated .v file (cases.v) with coqc; returns (rc, output)."""
    d = os.path.join(BUILD, "coqeval-%s-%d" % (name, os.getpid()))
    os.makedirs(d, exist_ok=True)
    try:
        p = os.path.join(d, "cases.v")
        open(p, "w").write(text)
        rc, out, dt = run(["coqc", "-Q", COQ, "Glb", "cases.v"], cwd=d, timeout=timeout)
        return rc, out, dt
    finally:
        shutil.rmtree(d, ignore_errors=True)


def coq_bytes(hexs):
    """hex field -> Coq list N literal"""
    if hexs == "-":
        return "[]"
    b = bytes.fromhex(hexs)
    return "[" + ";".join(str(x) for x in b) + "]"
