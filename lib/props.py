"""Per-property configuration of the generic runner."""

from props_common import HARNESS_TB, EXTRACT_TB  # noqa: F401

PROPS = {}



def _load():
    import glob
    import importlib
    import os
    import sys
    here = os.path.dirname(os.path.abspath(__file__))
    for f in sorted(glob.glob(os.path.join(here, "prop_*.py"))):
        try:
            m = importlib.import_module(os.path.basename(f)[:-3])
            PROPS[m.ID] = m.CFG
        except Exception as e:  # a broken module must not take the other properties down
            sys.stderr.write("props: cannot load %s: %r\n" % (os.path.basename(f), e))


_load()
