from vcheck import coq_bytes
from props_common import HARNESS_TB, EXTRACT_TB


def c16_casesv(lines):
    rows = []
    for l in lines:
        _, s, o, t = l.split()
        rows.append("verdict_ok (check_case %s %s %s)" % (coq_bytes(s), coq_bytes(o), coq_bytes(t)))
    return ("From Coq Require Import List NArith.\nImport ListNotations.\nFrom Glb Require Import Check.C16.\n"
            "Open Scope N_scope.\nDefinition verdicts : list bool := [\n  " + ";\n  ".join(rows) +
            "].\nEval vm_compute in verdicts.\n")


ID = "C16"
CFG = dict(
    propfile="Properties/C16.v",
    coq_deps=["Lib/Shell", "Model/ShellEscape", "Proofs/ShellEscapeP", "Properties/C16", "Check/C16"],
    ocaml="c16",
    casesv=c16_casesv,
    rule=("[plus a dictionary stream of ~190 shell idioms ($HOME/, ${x:-y}, $(id), ~root/, x=~/y, redirections, reserved words, quote idioms): alone, as prefix, after ~/, and 3,000 (thorough 40,000) random concatenations] every string of length <= L over the 15-symbol shell alphabet (L=4 quick, 5 thorough), every string of length <= 3 over a 32-symbol alphabet (adds tab, CR, braces, comma, glob/redirect/grouping characters, =, /, %), every single byte, a subset repeated under 10 environment variants (SHELL=fish ..., HOME, LANG, IFS), "
          "'~/'-prefixed variants, and seeded random non-NUL byte strings; each case is a distinct input string; "
          "non-trivial = distinct case lines"),
    trusted_base=[HARNESS_TB, EXTRACT_TB, "dash and bash stand for 'a POSIX shell'; Lib/Shell.v is my reading of XCU 2.2-2.3, "
                  "validated against both shells on every explored output"],
    assumptions=["HOME expansion of a tilde-prefix is the shell's; modelled as word_value with home=/h"],
)
CFG["manifest"] = dict(
    text=("Proof: Coq theorems C16_one_literal_word / C16_alone / C16_in_context / C16_tilde / C16_tilde_otherwise hold for every byte "
          "string and every lexer context (induction over the string against a POSIX token-recognition automaton). "
          "Tie: the Go functions are run on every string of length <= 4 (thorough: 5) over the shell's special characters, every "
          "byte, and random strings; each output is judged by the extracted lexer and by the real dash and bash."),
    note=("Trusted: Coq kernel; Lib/Shell.v as the reading of POSIX (validated against dash/bash on all explored outputs); "
          "extraction + OCaml glue (cross-checked by vm_compute sample); Go harness. The model is hand-written and tied to "
          "the code differentially, not by translation."),
    technique="Coq proof (induction, lexer automaton) + differential correspondence incl. real shells",
)

import tables  # constant tables / literals of the current source proved equal to the model's on every run (lib/tables.py)
CFG["secondary"] = CFG.get("secondary", []) + [tables.C16_TABLES]
import go2coq  # noqa: E402  (second tie: the model regenerated from the source on every run)
CFG["secondary"] = CFG.get("secondary", []) + [go2coq.C16_SRC]
