from props_common import HARNESS_TB, EXTRACT_TB


def c18_casesv(lines):
    """Full verdict against the copy strategy the driver found this run to follow (it writes strategy.txt next to
    cases.txt, i.e. into this process's run directory) - the same thing the driver's SPECFAIL/MISMATCH lines say."""
    import os
    import vcheck as V
    strategy = "0"
    try:
        strategy = open(os.path.join(V.BUILD, "run-C18-%d" % os.getpid(), "strategy.txt")).read().strip() or "0"
    except OSError:
        pass
    rows = []
    for l in lines:
        f = l.split()
        if f[0] == "D":   # directory-like destination spelling: op mkind otherdev srcmissing nonempty ok srcp srco dstgiven third dstinside selfparent srcsym
            rows.append("dirlike_ok_for %s %s" % (strategy, " ".join(f[1:14])))
            continue
        rows.append("verdict_ok_for %s (check_case %s)" % (strategy, " ".join(f[1:11])))
    return ("From Coq Require Import List NArith.\nImport ListNotations.\nFrom Glb Require Import Check.C18.\n"
            "Open Scope N_scope.\nDefinition verdicts : list bool := [\n  " + ";\n  ".join(rows) +
            "].\nEval vm_compute in verdicts.\n")


def c18_sig(line):
    f = line.split()
    # "VIOL <reason> <op> <kind> ..." or "E <op> <kind> ..." (from SPECFAIL)
    if f and f[0] == "VIOL":
        f = f[1:]
    return "op%s-kind%s" % (f[1], f[2]) if len(f) > 2 else ""


ID = "C18"
CFG = dict(
    propfile="Properties/C18.v",
    coq_deps=["Model/FileOps", "Lib/FsScenarios", "Proofs/FileOpsP", "Properties/C18", "Check/C18"],
    ocaml="c18",
    casesv=c18_casesv,
    case_tags=("E", "D"),
    sig=c18_sig,
    rule=("{CopyFile, MoveFile} x 10 destination kinds (missing, other file, same path, './' '//' 'd/../' spellings, symlink to "
          "source, hard link, directory, parent missing, parent is a file, symlink to another file) x {same device, other "
          "device (/dev/shm; rename fails with EXDEV; kinds that need one device excluded)} x sizes {0, 1, 10, 4 KiB, 32 KiB, "
          "32 KiB+1, 64 KiB, 1 MiB} + seeded random sizes (thorough: 16 sizes up to 4 MiB + 24 random) x content classes chosen "
          "independently of the size (random, all zeros, all 0xFF, random head + zero tail starting at/just before/just after the "
          "last 32 KiB and 4 KiB boundary, zero head + random tail, alternating zero/data 4 KiB and 32 KiB blocks; all 15 classes "
          "on the kinds that transfer bytes, random + zeros on the others), a missing source; path spellings whose lexical "
          "cleaning would name another file, for source and destination (<work>/<symlink to dir/sub>/../name, doubled slashes and a "
          "trailing '/.', a file literally named '~' passed as '~' and './~', a directory literally named '~' passed as '~/name'; "
          "cwd inside the sandbox, HOME pointing to a sandbox directory); existing destinations in every relation to the source of "
          "size x modification time (os.Chtimes) x content, and two-step sequences onto one destination (CopyFile X->D by the code "
          "under test, then Y->D with X's size and mtime); related names of source and destination (source = <dest> + '.tmp' '~' '.bak' "
          "'.part' '.new' '.old' '.swp' in the destination's directory, and the reverse), against missing / file / directory / "
          "symlink destinations; sources whose stat size is not what reading yields - "
          "a stable /proc file (read only, CopyFile only) and a FIFO in the sandbox fed by a writer goroutine (CopyFile; MoveFile across "
          "devices) - judged by the specification on the observed outcome only ('S' lines: outside the file-system model); "
          "directory-like destination SPELLINGS ('D' lines): 'dir/', 'dir//', 'dir/.' and the same three through a symbolic link to the "
          "directory, where dir is the source's own parent (or the directory holding the symbolic link used as source path, its data "
          "file elsewhere / on the other device), another existing directory (with and without a file of the source's base name in it) or "
          "a missing directory, both functions, sizes 0..70000 (thorough 1 MiB) - 'the destination' is the path given if it resolves to a "
          "regular file, else <dir>/<base name of the source>; the model outcome is the 'destination is a directory' / 'parent missing' "
          "failure, a success that satisfies the property under that reading is accepted too; "
          "and real faults without hooks: "
          "destination a symlink (in the scratch directory) to /dev/full (create follows it and succeeds, every write fails with ENOSPC), and - unless running as "
          "root - an unwritable destination directory and an unreadable source; real files, one case = one call on a freshly "
          "arranged directory; non-trivial = distinct case lines"),
    trusted_base=[HARNESS_TB, EXTRACT_TB,
                  "Model/FileOps.v as the reading of open/stat/create(O_TRUNC)/rename/unlink semantics (POSIX, Linux) and of how "
                  "a system call fails (without effect; the data copy possibly after a prefix was stored); tied to the kernel on "
                  "the explored scenarios: the observed outcome class must equal the model's for every case",
                  "the file systems used by the harness: the one holding /verif/.build, the tmpfs /dev/shm, devtmpfs (/dev/full)"],
    assumptions=["the model's source is a regular file whose size is the length of its content; /proc files and FIFOs (stat size 0, content on "
                 "read) are not modelled - they are exercised by the harness and judged by the property statement on the outcome only",
                 "two alias policies are modelled and proved for CopyFile onto the source itself: refuse (error, as at HEAD) and no-op "
                 "(nil, nothing touched; MoveFile then tests for the alias itself after a failed rename and returns the rename error - "
                 "without that test the model loses the file: move_noop_without_test_refuted); the run must agree with one "
                 "(strategy x alias policy) variant on every case (driver stats strategy, alias_policy)",
                 "two copy strategies are modelled and proved: writing through the destination path (create + truncate, as in the "
                 "code at HEAD) and temporary file + rename over the destination name (atomic replace); a run must agree with one "
                 "of them on every case (the first case on which they differ decides; driver stat 'strategy'); an outcome that "
                 "satisfies the property but matches neither model is reported without a failing input",
                 "the model resolves paths to slots and has no notion of a spelling: a destination text ending in a path separator or "
                 "'/.' is the model's 'destination is a directory' (missing directory: 'parent missing') failure; an implementation that "
                 "reads 'dir/' like cp(1) (copy into dir under the source's base name) is outside the model and judged by the property "
                 "statement alone (Check/C18.v spec_dirlike: nil => source intact (CopyFile) and <dir>/<base> holds the original bytes; "
                 "<dir> = the source's own directory makes the two aliases; error => source intact)",
                 "PARTIAL: outside the model, hence not proved: files changed by other processes during the call, crash consistency",
                 "faults: every call site (rename, open, src.Stat, os.Stat(dest), create, io.Copy incl. partial write, remove) may "
                 "fail, chosen by a universally quantified oracle - except a spurious failure of os.Stat(dest) while dest really is "
                 "the source: the code treats any Stat error as 'not there' and truncates; shown as copy_stat_fault_on_alias_refuted "
                 "(a real, narrow window of the repaired code; cannot be provoked without hooks)",
                 "a failing call has no effect on the file system (only io.Copy may leave a prefix behind)",
                 "MoveFile's theorems take a source path that is itself a hard link to a regular file (a source that is a symbolic "
                 "link is moved as a link; outside the property's quantifier)",
                 "os.SameFile is modelled as equality of inode identity (device, inode number)",
                 "inode numbers at or above the allocation mark are unused (wf); the kernel allocates a fresh inode for a new file",
                 "permission-fault scenarios (unwritable directory, unreadable source) are skipped when the harness runs as root "
                 "(stats: permission_scenarios); a failing final Remove is covered by theorem C18_move_remove_fails only"],
)
CFG["manifest"] = dict(
    text=("Proof (partial): Coq theorems C18_copy_faults, C18_move_faults, C18_move_remove_fails (and their fault-free corollaries "
          "C18_copy, C18_move), C18_copy_replace_faults / C18_move_replace_faults for the temp-file-and-rename strategy, and the four *_noop_faults theorems for the no-op alias policy, hold for every file-system state, every aliasing relation between the two paths (same entry, symlink "
          "chains, hard links, none), every device layout, every content and every fault oracle over the call sites (failure without "
          "effect, partial write then error), under the system-call model of Model/FileOps.v: nil => destination reads the original "
          "bytes (CopyFile: source unchanged; MoveFile: source entry gone or was an alias); error at any step => source present and "
          "intact, the source entry is removed only when the destination is complete, a failing final Remove leaves both copies; "
          "other files untouched; the destination itself may be left truncated or partial on error. "
          "copy_without_samefile_refuted: the same model loses content without the os.SameFile test (the repaired defect); "
          "copy_stat_fault_on_alias_refuted: the one fault excluded from the theorems (os.Stat(dest) failing on an alias) loses content. "
          "Tie: both functions are run on real files for all scenario kinds, two devices, sizes 0..1 MiB (thorough 4 MiB), 15 content "
          "classes (zero runs around block boundaries) and real ENOSPC / permission faults; the observed outcome class is judged by the "
          "property statement and must equal the model's."),
    note=("Partial: concurrent modification by other processes and crashes are not modelled. Trusted: Coq kernel; the system-call and "
          "fault semantics in Model/FileOps.v (validated against the kernel on every explored scenario); extraction + OCaml glue "
          "(cross-checked by vm_compute sample); Go harness."),
    technique="Coq proof over an abstract file system (slots/inodes/devices, aliasing and faults as data) + real-file correspondence on three devices",
)
