from props_common import HARNESS_TB, EXTRACT_TB


def c18_casesv(lines):
    rows = []
    for l in lines:
        f = l.split()
        rows.append("verdict_ok (check_case %s)" % " ".join(f[1:11]))
    return ("From Coq Require Import List NArith.\nImport ListNotations.\nFrom Glb Require Import Check.C18.\n"
            "Open Scope N_scope.\nDefinition verdicts : list bool := [\n  " + ";\n  ".join(rows) +
            "].\nEval vm_compute in verdicts.\n")


def c18_sig(line):
    f = line.split()
    # "VIOL <reason> <op> <kind> ..." or "E <op> <kind> ..." (from SPECFAIL)
    if f and f[0] == "VIOL":
        f = f[1:]
    return "op%s-kind%s" % (f[1], f[2]) if len(f) > 2 else ""


ID = "C18"
CFG = dict(
    propfile="Properties/C18.v",
    coq_deps=["Model/FileOps", "Lib/FsScenarios", "Proofs/FileOpsP", "Properties/C18", "Check/C18"],
    ocaml="c18",
    casesv=c18_casesv,
    sig=c18_sig,
    rule=("{CopyFile, MoveFile} x 10 destination kinds (missing, other file, same path, './' '//' 'd/../' spellings, symlink to "
          "source, hard link, directory, parent missing, parent is a file, symlink to another file) x {same device, other "
          "device (/dev/shm; rename fails with EXDEV; kinds that need one device excluded)} x sizes {0, 1, 4 KiB, 1 MiB (thorough "
          "up to 4 MiB)} and seeded random sizes, plus a missing source; real files, one case = one call on a freshly arranged "
          "directory; non-trivial = distinct case lines"),
    trusted_base=[HARNESS_TB, EXTRACT_TB,
                  "Model/FileOps.v as the reading of open/stat/create(O_TRUNC)/rename/unlink semantics (POSIX, Linux); tied to the "
                  "kernel on the explored scenarios: the observed outcome class must equal the model's for every case",
                  "the file systems used by the harness: the one holding /verif/.build and the tmpfs /dev/shm"],
    assumptions=["PARTIAL: outside the model, hence not proved: short or failing writes (ENOSPC, EIO, EDQUOT, signals), "
                 "permission errors, files changed by other processes during the call, crash consistency",
                 "MoveFile's theorem takes a source path that is itself a hard link to a regular file (a source that is a symbolic "
                 "link is moved as a link; outside the property's quantifier)",
                 "os.SameFile is modelled as equality of inode identity (device, inode number)",
                 "inode numbers at or above the allocation mark are unused (wf); the kernel allocates a fresh inode for a new file"],
)
CFG["manifest"] = dict(
    text=("Proof (partial): Coq theorems C18_copy and C18_move hold for every file-system state, every aliasing relation between the "
          "two paths (same entry, symlink chains, hard links, none), every device layout and every content, under the system-call "
          "model of Model/FileOps.v: nil => destination reads the original bytes (and for CopyFile the source is unchanged, for "
          "MoveFile the source entry is gone or was an alias); error => source present and intact; other files untouched. "
          "copy_without_samefile_refuted shows the same model loses content without the os.SameFile test (the repaired defect). "
          "Tie: both functions are run on real files for all scenario kinds, two devices and sizes 0..1 MiB (thorough 4 MiB); the "
          "observed outcome class is judged by the property statement and must equal the model's."),
    note=("Partial: short writes, ENOSPC/EIO, permissions, concurrent modification and crashes are not modelled. Trusted: Coq kernel; "
          "the system-call semantics in Model/FileOps.v (validated against the kernel on every explored scenario); extraction + "
          "OCaml glue (cross-checked by vm_compute sample); Go harness."),
    technique="Coq proof over an abstract file system (slots/inodes/devices, aliasing as data) + real-file correspondence on two devices",
)
